package eng

import (
	"fmt"
	"sort"
	"strings"

	incr "github.com/wcharczuk/go-incr"
)

// Finding is one oracle complaint about the implementation.
type Finding struct {
	Prop string // property id
	Kind string // stable short classification (used as the finding's signature)
	What string
	Op   int // index of the operation at which it was noticed
}

// Monitor evaluates the property oracles on the implementation while a history runs.
// Every oracle is written against the property text and the harness's own record of the
// program; none of them consults the Coq model.
type Monitor struct {
	E        *Exec
	Findings []Finding
	// lifecycle automaton (C10)
	live      map[int]bool
	invalided map[int]bool
	// per necessity period / per pass run counts (C03)
	runsThisPass map[int]int
	// snapshot taken in OnStabilizationEnd, before deferred writes are applied (C02)
	endVals map[int]int
	// the current right-hand side root of each bind (by lhs-change id), -1 = nil, absent = never built
	rhsRoot map[int]int
	// dead generations: nodes that must never run again (C08)
	dead          map[int]bool
	deadBefore    map[int]bool // dead before the current pass started
	necThisPass   map[int]bool // nodes that (re-)entered the graph during the current pass
	deadByReentry map[int]bool // discarded by a bind function run that happened because the bind re-entered the graph
	everNec       map[int]bool // ever became necessary
	// whether any pass since the last fully successful one failed
	failedSince     bool
	Rejected        bool        // some operation so far returned a cycle / height-limit rejection
	faultedThisPass []int       // nodes at which the plan injected a fault that was reached in the current pass
	heightsBefore   map[int]int // C18: heights of the registered nodes before an AddInput between two registered nodes (bind-free programs)
	Cyclic          bool        // an accepted AddInput made the program cyclic
	CyclicAt        int
	deferred        map[int]int // C12: var -> value the mid-pass writes of this pass must leave behind
	passStart       map[int]int // C12: var values when the pass started
}

func NewMonitor(e *Exec) *Monitor {
	m := &Monitor{E: e, live: map[int]bool{}, invalided: map[int]bool{}, runsThisPass: map[int]int{},
		rhsRoot: map[int]int{}, dead: map[int]bool{}, deadBefore: map[int]bool{}, everNec: map[int]bool{}, necThisPass: map[int]bool{}, deadByReentry: map[int]bool{}, deferred: map[int]int{}, passStart: map[int]int{}}
	e.OnEvent = m.onEvent
	e.OnAction = m.onAction
	return m
}

func (m *Monitor) add(prop, kind, what string) {
	if m.Cyclic {
		// the program itself has become cyclic (AddInput closed a cycle on a node that was not in
		// the graph, which the library does not check): outside "any DAG of combinators"
		kind += "@cyclic-program"
	} else if m.Rejected {
		// an earlier operation of this history was rejected for a cycle or the height limit
		kind += "@after-rejection"
	}
	m.Findings = append(m.Findings, Finding{Prop: prop, Kind: kind, What: what, Op: len(m.E.Ops)})
}

func (m *Monitor) onEvent(ev Event) {
	switch ev.K {
	case "EvFault":
		m.faultedThisPass = append(m.faultedThisPass, ev.N)
	case "EvNec":
		if m.live[ev.N] {
			m.add("C10", "necessary-twice", fmt.Sprintf("n%d reported 'became necessary' while already necessary", ev.N))
		}
		m.live[ev.N] = true
		m.everNec[ev.N] = true
		m.necThisPass[ev.N] = true
		m.runsThisPass[ev.N] = 0 // a new period of necessity
	case "EvUnnec":
		if !m.live[ev.N] {
			m.add("C10", "unnecessary-without-necessary", fmt.Sprintf("n%d reported 'became unnecessary' while not necessary", ev.N))
		}
		m.live[ev.N] = false
	case "EvInval":
		if m.invalided[ev.N] {
			m.add("C10", "invalidated-twice", fmt.Sprintf("n%d reported 'invalidated' twice", ev.N))
		}
		m.invalided[ev.N] = true
	case "EvInvoked", "EvBindFn", "EvCutoff":
		if !m.live[ev.N] {
			m.add("C10", "ran-while-unnecessary", fmt.Sprintf("function of n%d ran outside a necessary..unnecessary period", ev.N))
		}
		if m.dead[ev.N] {
			m.add("C08", "dead-scope-ran", fmt.Sprintf("n%d belongs to a discarded right-hand side but its function ran again", ev.N))
		}
		if ev.K != "EvCutoff" {
			m.runsThisPass[ev.N]++
			if m.runsThisPass[ev.N] > 1 {
				kind := "ran-twice"
				if m.E.Par > 0 && m.necThisPass[ev.N] {
					// the node left the graph and came back within this parallel pass (two binds of one
					// height block): it is queued again and still runs with the block it was taken from
					kind = "ran-twice@reregistered-in-parallel-block"
				}
				m.add("C03", kind, fmt.Sprintf("function of n%d ran twice in one pass within one period of necessity", ev.N))
			}
		}
		if ev.K == "EvBindFn" {
			// everything the previous run of this bind's function created is now discarded
			b := ev.N
			for id, ref := range m.E.Nodes {
				if ref != nil && ref.Scope == b && ref.Gen < m.E.Nodes[b].Bind.Gen-1 && id != ev.Root {
					if !m.dead[id] && m.necThisPass[b] {
						m.deadByReentry[id] = true
					}
					m.dead[id] = true
				}
			}
			m.rhsRoot[b] = ev.Root
			// a discarded bind takes its own scopes with it: everything any run of a dead
			// bind's function created is dead too
			for changed := true; changed; {
				changed = false
				for id, ref := range m.E.Nodes {
					if ref == nil || m.dead[id] || ref.Scope < 0 {
						continue
					}
					if m.dead[ref.Scope] { // Scope is the creating bind's lhs-change id
						m.dead[id] = true
						if m.deadByReentry[ref.Scope] {
							m.deadByReentry[id] = true
						}
						changed = true
					}
				}
			}
		}
	case "EvPassEnd":
		m.endVals = map[int]int{}
		for id, ref := range m.E.Nodes {
			if ref != nil && ref.Inc != nil {
				m.endVals[id] = ref.Inc.Value()
			}
		}
	}
}

// onAction sees every mid-pass write at the moment the node function performs it.
func (m *Monitor) onAction(a Action) {
	if a.Kind != "ASet" && a.Kind != "AUpdate" {
		return
	}
	base, pending := m.deferred[a.Var]
	if !pending {
		base = m.E.Nodes[a.Var].Inc.Value()
	}
	if a.Kind == "ASet" {
		m.deferred[a.Var] = a.X
	} else {
		m.deferred[a.Var] = norm(base + a.X)
	}
}

// BeforeOp is called before each operation.
func (m *Monitor) BeforeOp(op Op) {
	m.heightsBefore = nil
	if op.K == "AddInput" && m.E.Registered(op.A) && m.E.Registered(op.B) && !m.Cyclic && !m.Rejected {
		bindFree := true
		hs := map[int]int{}
		for id, ref := range m.E.Nodes {
			if ref == nil {
				continue
			}
			if ref.Kind == "Bind" || ref.Kind == "BindLhs" || ref.Kind == "Sentinel" || ref.Scope >= 0 {
				bindFree = false
				break
			}
			if !ref.Recycled && m.E.G.Has(ref.INode) {
				hs[id] = incr.ExpertNode(ref.INode).Height()
			}
		}
		if bindFree {
			m.heightsBefore = hs
		}
	}
	if op.K == "Stabilize" || op.K == "StabilizeCancelled" || op.K == "ParStabilize" {
		m.runsThisPass = map[int]int{}
		m.faultedThisPass = nil
		m.necThisPass = map[int]bool{}
		m.deferred = map[int]int{}
		m.passStart = map[int]int{}
		for id, ref := range m.E.Nodes {
			if ref != nil && ref.Kind == "Var" {
				m.passStart[id] = ref.Inc.Value()
			}
		}
	}
}

// eval computes a node's value from scratch from the harness's record of the program.
// Inputs: the vars' current values and the held values of history-dependent cutoffs.
func (m *Monitor) eval(id int, depth int) (int, bool) {
	if depth > 400 || m.Cyclic || m.Rejected {
		return 0, false
	}
	ref := m.E.Nodes[id]
	switch ref.Kind {
	case "Var":
		return ref.Inc.Value(), true
	case "Return":
		return ref.Const, true
	case "Map":
		a, ok := m.eval(ref.Decl[0], depth+1)
		return ref.F1.Ap(a), ok
	case "Map2":
		a, ok1 := m.eval(ref.Decl[0], depth+1)
		b, ok2 := m.eval(ref.Decl[1], depth+1)
		return ref.F2.Ap(a, b), ok1 && ok2
	case "MapN":
		xs := make([]int, len(ref.Decl))
		ok := true
		for i, d := range ref.Decl {
			var k bool
			xs[i], k = m.eval(d, depth+1)
			ok = ok && k
		}
		return ApN(ref.FN, xs), ok
	case "Always":
		return m.eval(ref.Decl[0], depth+1)
	case "Cutoff":
		switch ref.Cut {
		case "CEq", "CNever":
			return m.eval(ref.Decl[0], depth+1)
		case "CAlways":
			return 0, true // never lets a value through: holds its initial (zero) value
		default:
			return ref.Inc.Value(), true // history dependent: its held value is an input
		}
	case "Pair":
		a, ok1 := m.eval(ref.Decl[0], depth+1)
		b, ok2 := m.eval(ref.Decl[1], depth+1)
		return Bind2Key(a, b), ok1 && ok2
	case "BindMain":
		x, ok := m.eval(ref.Bind.Lhs, depth+1)
		if !ok {
			return 0, false
		}
		v, ok2 := m.evalT(ref.Bind.Cases[norm3(x, len(ref.Bind.Cases))], x, depth+1)
		return v, ok2
	}
	return 0, false
}

func (m *Monitor) evalT(t *Texp, x int, depth int) (int, bool) {
	if depth > 400 {
		return 0, false
	}
	switch t.K {
	case "TRet":
		return t.Z, true
	case "TX":
		return x, true
	case "TOuter":
		return m.eval(t.N, depth+1)
	case "TMap":
		a, ok := m.evalT(t.E1, x, depth+1)
		return t.F1.Ap(a), ok
	case "TMap2":
		a, ok1 := m.evalT(t.E1, x, depth+1)
		b, ok2 := m.evalT(t.E2, x, depth+1)
		return t.F2.Ap(a, b), ok1 && ok2
	case "TCut":
		switch t.Cut {
		case "CEq", "CNever":
			return m.evalT(t.E1, x, depth+1)
		case "CAlways":
			return 0, true
		}
		return 0, false // history dependent inside a scope: not generated
	case "TBind":
		y, ok := m.evalT(t.E1, x, depth+1)
		if !ok {
			return 0, false
		}
		return m.evalT(t.Cases[norm3(y, len(t.Cases))], y, depth+1)
	}
	return 0, true // TNil: the bind holds the zero value
}

// reachable computes the nodes an observer can reach through current input edges.
func (m *Monitor) reachable() map[int]bool {
	seen := map[int]bool{}
	var visit func(id int)
	visit = func(id int) {
		if seen[id] {
			return
		}
		seen[id] = true
		ref := m.E.Nodes[id]
		if m.invalided[id] {
			// an invalidated node has given up its inputs (it will never recompute): an observer
			// that still holds it keeps the node itself registered, nothing behind it
			return
		}
		switch ref.Kind {
		case "BindMain":
			visit(ref.Bind.B)
			if ref.Bind.Memo != nil {
				// a memoized bind switches to a cached right-hand side without running the
				// harness's function, so the current one is read off the bind's declared inputs
				if ps := ref.Bind.Memo.Parents(); len(ps) == 2 {
					if id, ok := m.E.byPtr[ps[1].Node()]; ok {
						visit(id)
					}
				}
			} else if r, ok := m.rhsRoot[ref.Bind.B]; ok && r >= 0 {
				visit(r)
			}
		default:
			for _, d := range ref.Decl {
				visit(d)
			}
		}
	}
	for _, or := range m.E.Obs {
		visit(or.Target)
	}
	return seen
}

// EdgesAfterRejectedAddInput is the one probe that looks past a structural rejection (the state
// there is a recorded finding, K03: heights may be inverted and a closed cycle stays linked). What
// a rejected MapN.AddInput must still not do is leave an edge only one side knows about: the
// inputs the node declares (its own Parents()) and the inputs the graph has linked it to must
// be the same multiset, or the linked-but-undeclared input can never be released again (C06).
// Called by the history loops right before they stop at the rejection.
func (m *Monitor) EdgesAfterRejectedAddInput(op Op, s Sample) {
	e := m.E
	if op.K != "AddInput" || (s.Class != "XLimit" && s.Class != "XCycle") || s.Crashed || m.Cyclic {
		return
	}
	ref := e.Nodes[op.A]
	decl, ok := ref.INode.(interface{ Parents() []incr.INode })
	if !ok || !e.G.Has(ref.INode) {
		return
	}
	count := func(ps []incr.INode) map[*incr.Node]int {
		c := map[*incr.Node]int{}
		for _, p := range ps {
			c[p.Node()]++
		}
		return c
	}
	declared, linked := count(decl.Parents()), count(incr.ExpertNode(ref.INode).Parents())
	same := len(declared) == len(linked)
	for k, v := range declared {
		if linked[k] != v {
			same = false
		}
	}
	if !same {
		m.Findings = append(m.Findings, Finding{Prop: "C06", Kind: "rejected-addinput-one-sided-edge",
			What: fmt.Sprintf("after %s was rejected (%s) n%d declares %d inputs but is linked to %d", op.String(), s.Class, op.A, len(decl.Parents()), len(incr.ExpertNode(ref.INode).Parents())), Op: len(e.Ops)})
	}
}

// AfterOp evaluates the state oracles at an operation boundary.
func (m *Monitor) AfterOp(op Op, s Sample) {
	e := m.E
	isPass := op.K == "Stabilize" || op.K == "StabilizeCancelled" || op.K == "ParStabilize"
	if s.Class == "XLimit" || s.Class == "XCycle" {
		m.Rejected = true
	}
	if isPass {
		// a sentinel that fired is owed a recompute of the node it watches; a pass that fails may
		// stop before reaching it, the debt is then settled by a later pass
		for _, sref := range e.Nodes {
			if sref == nil || sref.Kind != "Sentinel" || !sref.Fired {
				continue
			}
			for _, ev := range s.Raw {
				if ev.N == sref.Watched && (ev.K == "EvInvoked" || ev.K == "EvCutoff" || ev.K == "EvBindFn") {
					sref.Fired = false
				}
			}
		}
	}
	if op.K == "AddInput" && s.Class == "XOk" && !m.Cyclic && m.dependsOn(op.B, op.A, map[int]bool{}) {
		if e.Registered(op.A) {
			// C18: linking an edge that closes a cycle in the graph must be refused
			m.add("C18", "cycle-accepted", fmt.Sprintf("%s closes a cycle through nodes of the graph but was accepted", op.String()))
		}
		m.Cyclic = true
		m.CyclicAt = len(e.Ops)
	}
	if op.K == "AddInput" && s.Class == "XLimit" && m.heightsBefore != nil && !m.dependsOn(op.B, op.A, map[int]bool{}) {
		// C18: the height limit is an error only "when that is impossible": raise the dependent above the
		// new input and everything downstream above it, from the heights the nodes had; if all of that fits
		// under the limit (heights 0..MaxHeight-1) the rejection was spurious
		need := map[int]int{}
		for id, h := range m.heightsBefore {
			need[id] = h
		}
		top := 0
		work := []int{}
		if need[op.A] < need[op.B]+1 {
			need[op.A] = need[op.B] + 1
			work = append(work, op.A)
		}
		for len(work) > 0 {
			p := work[0]
			work = work[1:]
			for id, ref := range e.Nodes {
				if ref == nil {
					continue
				}
				if _, in := m.heightsBefore[id]; !in {
					continue
				}
				for _, d := range ref.Decl {
					if d == p && need[id] < need[p]+1 {
						need[id] = need[p] + 1
						work = append(work, id)
					}
				}
			}
		}
		for _, h := range need {
			if h > top {
				top = h
			}
		}
		if top < e.MaxHeight {
			m.Findings = append(m.Findings, Finding{Prop: "C18", Kind: "spurious-height-limit", Op: len(e.Ops),
				What: fmt.Sprintf("%s was rejected for the height limit %d although raising the dependents needs no height above %d", op.String(), e.MaxHeight, top)})
		}
	}
	if op.K == "AddInput" && s.Class == "XOk" && !m.Cyclic && !m.Rejected && e.Registered(op.A) {
		// C18: after a successful link every dependent is strictly above all its inputs
		bad := ""
		for id, ref := range e.Nodes {
			if ref == nil || ref.Recycled || !e.G.Has(ref.INode) {
				continue
			}
			en := incr.ExpertNode(ref.INode)
			for _, p := range en.Parents() {
				if pid, ok := e.byPtr[p.Node()]; ok && e.Nodes[pid] != nil && e.Nodes[pid].Kind == "Sentinel" {
					continue
				}
				if en.Height() <= incr.ExpertNode(p).Height() {
					bad = fmt.Sprintf("n%d at height %d, input at height %d", id, en.Height(), incr.ExpertNode(p).Height())
				}
			}
		}
		if bad != "" {
			m.add("C18", "heights-not-repaired", fmt.Sprintf("after %s (accepted) a dependent is not above its input: %s", op.String(), bad))
		}
	}
	if s.Crashed {
		prop := "C05"
		kind := "panic:" + op.K
		switch {
		case isPass:
			prop = "C07"
			for _, a := range op.Plan {
				if a.Kind == "ASet" || a.Kind == "AUpdate" {
					prop = "C12"
				}
			}
		case op.K == "SetVar" || op.K == "UpdateVar":
			prop = "C12"
		}
		m.add(prop, kind, fmt.Sprintf("%s panicked or reported an internal panic: %s", op.String(), s.CrashMsg))
		return
	}
	// C05: the library's own invariant check plus an independent one
	if err := incr.ExpertGraph(e.G).CheckInvariants(); err != nil {
		// A sentinel is linked as an input of the node it watches and sits at its scope's base
		// height; the library's checker reports that as a height inversion when the watched node
		// is itself at that height. A watcher is not a dependency edge in the sense of C05 (the
		// independent check below ignores it), so those lines are dropped.
		var kept []string
		for _, line := range strings.Split(err.Error(), "\n") {
			if strings.Contains(line, "height inversion") && strings.Contains(line, "parent sentinel[") {
				continue
			}
			kept = append(kept, line)
		}
		msg := strings.Join(kept, "\n")
		if msg != "" {
			kind := "invariants"
			for _, k := range []string{"edge asymmetry", "height inversion", "graph counts", "is queued at height", "not necessary", "position", "recompute heap"} {
				if strings.Contains(msg, k) {
					kind = "invariants:" + k
					break
				}
			}
			if len(msg) > 300 {
				msg = msg[:300]
			}
			m.add("C05", kind, "CheckInvariants after "+op.String()+": "+msg)
		}
	}
	m.structural(op)
	if e.G.IsStabilizing() {
		m.add("C07", "still-stabilizing", "IsStabilizing() is true after "+op.String()+" returned")
	}
	// C10: registered iff last notification was 'necessary'
	for id, ref := range e.Nodes {
		if ref == nil || ref.Recycled || ref.Kind == "Sentinel" {
			continue
		}
		if e.G.Has(ref.INode) != m.live[id] {
			m.add("C10", "registered-vs-last-notification", fmt.Sprintf("n%d: registered=%v but last lifecycle notification says necessary=%v",
				id, e.G.Has(ref.INode), m.live[id]))
			break
		}
	}
	if isPass && s.Class != "XOk" {
		m.failedSince = true
		// C07: a pass fails only for a reason: an injected fault, a cancelled context, or a
		// structural rejection (cycle, height limit)
		injected := op.K == "StabilizeCancelled"
		for _, a := range op.Plan {
			if a.Kind == "AFailErr" || a.Kind == "AFailPanic" {
				injected = true
			}
		}
		if s.Class == "XCancelNoCause" {
			m.add("C07", "cancel-cause-lost", fmt.Sprintf("%s was cancelled with a cause but returned the bare context.Canceled", op.String()))
		}
		if !injected && s.Class != "XCycle" && s.Class != "XLimit" {
			m.add("C07", "spurious-error", fmt.Sprintf("%s returned %s although nothing failed", op.String(), s.Class))
		}
	}
	// C07: a pass keeps every node it did not successfully recompute scheduled: the node whose function
	// (cutoff predicate, bind function) failed is queued when the pass returns, if it is still in the graph
	if isPass && (s.Class == "XUser" || s.Class == "XPanic") && !s.Crashed && !m.Cyclic && !m.Rejected {
		for _, id := range m.faultedThisPass {
			ref := e.Nodes[id]
			if ref == nil || ref.Recycled || ref.Kind == "Sentinel" || !e.G.Has(ref.INode) {
				continue
			}
			if !incr.ExpertNode(ref.INode).IsInRecomputeHeap() {
				m.add("C07", "failed-node-not-requeued", fmt.Sprintf("the function of n%d failed in %s (%s) but the node is not queued afterwards", id, op.String(), s.Class))
				break
			}
		}
	}
	// C03 / C07: a sentinel that watches a node of the graph is an always-node: whatever happened in the pass
	// -- it ran, it failed, it panicked, the pass stopped before reaching it -- it is queued for the next one
	if isPass && s.Class != "XCycle" && s.Class != "XLimit" && s.Class != "XAlready" && !s.Crashed && !m.Cyclic && !m.Rejected {
		for id, ref := range e.Nodes {
			if ref == nil || ref.Kind != "Sentinel" || ref.Watched < 0 {
				continue
			}
			if w := e.Nodes[ref.Watched]; w == nil || w.Recycled || !e.G.Has(w.INode) {
				continue // the library starts a sentinel when the node it watches enters the graph
			}
			if !incr.ExpertNode(ref.INode).IsInRecomputeHeap() {
				prop, kind := "C03", "sentinel-not-requeued"
				if s.Class != "XOk" {
					prop, kind = "C07", "failed-pass-sentinel-not-requeued"
				}
				m.add(prop, kind, fmt.Sprintf("sentinel s%d still watches n%d but is not queued after %s (%s)", id, ref.Watched, op.String(), s.Class))
				break
			}
		}
	}
	// C06: registered exactly when reachable from an observer (skipped while a failed bind is pending)
	if !m.failedSince {
		reach := m.reachable()
		for id, ref := range e.Nodes {
			if ref == nil || ref.Recycled || ref.Kind == "Sentinel" {
				continue
			}
			if e.G.Has(ref.INode) != reach[id] {
				m.add("C06", "registered-vs-reachable", fmt.Sprintf("n%d: registered=%v but reachable-from-observers=%v after %s",
					id, e.G.Has(ref.INode), reach[id], op.String()))
				break
			}
		}
		watching := 0
		for _, ref := range e.Nodes {
			if ref != nil && ref.Kind == "Sentinel" && ref.Watched >= 0 {
				watching++
			}
		}
		if len(e.Obs) == 0 && watching == 0 {
			if n := incr.ExpertGraph(e.G).NumNodes(); n != 0 {
				m.add("C06", "not-drained", fmt.Sprintf("nothing is observed but NumNodes=%d", n))
			}
			if n := incr.ExpertGraph(e.G).RecomputeHeapLen(); n != 0 {
				m.add("C06", "not-drained", fmt.Sprintf("nothing is observed but %d nodes are queued", n))
			}
		}
	}
	// C12: a write between passes is the var's value at once (last write wins)
	if op.K == "SetVar" && e.Nodes[op.A].Inc.Value() != op.V {
		m.add("C12", "write-lost", fmt.Sprintf("%s but the var reads %d", op.String(), e.Nodes[op.A].Inc.Value()))
	}
	if !isPass {
		return
	}
	// C12: mid-pass writes do not show during the pass and are the var's value once it ends
	for v, before := range m.passStart {
		if at, ok := m.endVals[v]; ok && at != before {
			m.add("C12", "midpass-write-visible", fmt.Sprintf("n%d read %d when the pass started and %d when it ended, before deferred writes apply", v, before, at))
		}
	}
	for v, want := range m.deferred {
		if got := e.Nodes[v].Inc.Value(); got != want {
			m.add("C12", "deferred-write-lost", fmt.Sprintf("n%d was written %d from inside the pass but reads %d after it", v, want, got))
		}
	}
	m.passOracles(op, s)
}

func (m *Monitor) passOracles(op Op, s Sample) {
	e := m.E
	// C13: bracket, order and counts of handlers
	starts, ends, lastRun, firstUpd := 0, 0, -1, -1
	updCount := map[int]int{}
	obsCount := map[int]int{}
	changed := map[int]bool{}
	for i, ev := range s.Raw {
		switch ev.K {
		case "EvPassStart":
			starts++
		case "EvPassEnd":
			ends++
			if ev.Class != s.Class {
				m.add("C13", "end-handler-error", fmt.Sprintf("OnStabilizationEnd saw %s, the call returned %s", ev.Class, s.Class))
			}
		case "EvInvoked", "EvBindFn", "EvCutoff":
			lastRun = i
			if ev.K == "EvInvoked" || (ev.K == "EvCutoff" && !ev.Verdict) {
				changed[ev.N] = true
			}
		case "EvUpd":
			updCount[ev.N]++
			if firstUpd < 0 {
				firstUpd = i
			}
		case "EvObsUpd":
			obsCount[ev.N]++
			if firstUpd < 0 {
				firstUpd = i
			}
		}
	}
	if s.Class != "XAlready" && (starts != 1 || ends != 1) {
		m.add("C13", "bracket", fmt.Sprintf("pass had %d start and %d end notifications", starts, ends))
	}
	if firstUpd >= 0 && firstUpd < lastRun {
		m.add("C13", "handler-before-computation", "an update handler ran before the last node computation of the pass")
	}
	for n, c := range updCount {
		if c > 1 {
			m.add("C13", "handler-twice", fmt.Sprintf("OnUpdate of n%d ran %d times in one pass", n, c))
		}
	}
	for n := range updCount {
		// a handler of a node with a function of its own runs only when that function ran in this
		// pass (vars, binds and always nodes change without an invocation event of their own)
		if ref := e.Nodes[n]; ref != nil && !changed[n] && (ref.Kind == "Map" || ref.Kind == "Map2" || ref.Kind == "MapN" || ref.Kind == "Cutoff") {
			m.add("C13", "handler-without-change", fmt.Sprintf("OnUpdate of n%d ran in a pass in which n%d was not recomputed to a new value", n, n))
		}
	}
	for n := range updCount {
		// update handlers are for nodes of the graph: a node that changed and was then torn down in the
		// same pass (a bind swapped it away) has its handler withdrawn
		if ref := e.Nodes[n]; ref != nil && !ref.Recycled && ref.Kind != "Sentinel" && !e.G.Has(ref.INode) {
			m.add("C13", "handler-for-node-out-of-graph", fmt.Sprintf("OnUpdate of n%d ran although n%d is not in the graph when the pass ends", n, n))
		}
	}
	for o, c := range obsCount {
		if c > 1 {
			m.add("C13", "observer-handler-twice", fmt.Sprintf("observer o%d OnUpdate ran %d times in one pass", o, c))
		}
	}
	for n := range changed {
		if e.Registered(n) && updCount[n] != 1 && s.Class == "XOk" {
			kind := "handler-missed"
			// did the node leave the graph after it changed and re-enter it later in this pass?
			seenChange, left := false, false
			for _, ev := range s.Raw {
				if ev.N == n && (ev.K == "EvInvoked" || (ev.K == "EvCutoff" && !ev.Verdict)) {
					seenChange = true
				}
				if ev.N == n && ev.K == "EvUnnec" && seenChange {
					left = true
				}
			}
			if left {
				kind += "@relinked-in-pass"
			}
			m.add("C13", kind, fmt.Sprintf("n%d changed in the pass and is still in the graph but its OnUpdate ran %d times", n, updCount[n]))
		}
	}
	for id, or := range e.Obs {
		if or.O == nil {
			continue
		}
		want := 0
		if updCount[or.Target] > 0 {
			want = 1
		}
		if obsCount[id] != want && s.Class == "XOk" {
			m.add("C13", "observer-handler-count", fmt.Sprintf("observer o%d: target n%d update-handlers=%d but observer handler ran %d times",
				id, or.Target, updCount[or.Target], obsCount[id]))
		}
	}
	// C02: every argument equals the input's value when the pass ended (before deferred writes)
	for _, ev := range s.Raw {
		if ev.K != "EvInvoked" {
			continue
		}
		ref := e.Nodes[ev.N]
		if len(ref.Decl) != len(ev.Args) {
			continue
		}
		for i, d := range ref.Decl {
			if want, ok := m.endVals[d]; ok && want != ev.Args[i] && !m.dead[ev.N] {
				m.add("C02", "stale-argument", fmt.Sprintf("n%d ran with argument %d = %d but input n%d holds %d when the pass ends",
					ev.N, i, ev.Args[i], d, want))
			}
		}
	}
	// C08: every node of a right-hand side discarded in this pass is invalidated in this pass and
	// its function does not run in it -- not even before the swap
	// the property speaks of a bind whose INPUT CHANGES; a bind that was dropped and picked up
	// again within the pass re-runs its function because it is new to the graph, and the
	// right-hand side it then discards may legitimately have recomputed earlier in the pass
	// (nodes discarded that way are marked deadByReentry)
	swapped := map[int]bool{}
	for _, ev := range s.Raw {
		if ev.K == "EvBindFn" {
			swapped[ev.N] = true
		}
	}
	if len(swapped) > 0 && s.Class == "XOk" {
		inval := map[int]bool{}
		ran := map[int]bool{}
		for _, ev := range s.Raw {
			if ev.K == "EvInval" {
				inval[ev.N] = true
			}
			if ev.K == "EvInvoked" {
				ran[ev.N] = true
			}
		}
		for id, ref := range e.Nodes {
			if ref == nil || !m.dead[id] || m.deadBefore[id] || m.deadByReentry[id] || ref.Scope < 0 || !swapped[ref.Scope] {
				continue
			}
			if !inval[id] && !m.invalided[id] && m.everNec[id] {
				m.add("C08", "discarded-not-invalidated", fmt.Sprintf("n%d was created by the run of bind n%d's function that this pass replaced, but was not invalidated in this pass", id, ref.Scope))
			}
			if ran[id] {
				m.add("C08", "discarded-ran-in-swapping-pass", fmt.Sprintf("n%d belongs to the right-hand side of bind n%d replaced in this pass, yet its function ran in this pass", id, ref.Scope))
			}
		}
	}
	for id := range m.dead {
		m.deadBefore[id] = true
	}
	if s.Class != "XOk" {
		return
	}
	m.failedSince = false
	// C01: observer values equal a from-scratch evaluation (values as of pass end)
	for id, or := range e.Obs {
		if m.dead[or.Target] {
			// the observed node belongs to a discarded right-hand side: it is invalidated and by
			// design never recomputes again (C08), so it is not part of the current definition
			continue
		}
		want, ok := m.evalAtEnd(or.Target)
		if !ok {
			continue
		}
		got, have := m.endVals[or.Target]
		if have && got != want {
			m.add("C01", "stale-value", fmt.Sprintf("observer o%d of n%d reads %d, a from-scratch evaluation gives %d", id, or.Target, got, want))
		}
	}
	// C03 (c): a sentinel that fired in this pass woke the node it watches, if that node is necessary
	for sid, sref := range e.Nodes {
		if sref == nil || sref.Kind != "Sentinel" {
			continue
		}
		if sref.Fired && sref.Watched >= 0 && e.Registered(sref.Watched) {
			w := e.Nodes[sref.Watched]
			if w.Kind == "Map" || w.Kind == "Map2" || w.Kind == "MapN" || w.Kind == "Cutoff" {
				m.add("C03", "sentinel-wake-missed", fmt.Sprintf("sentinel s%d fired but the necessary node n%d it watches did not recompute", sid, sref.Watched))
			}
		}
		sref.Fired = false
	}
	// C03: nothing owed is left behind by a successful pass
	for id, ref := range e.Nodes {
		if ref == nil || ref.Recycled || ref.Kind == "Sentinel" || !e.G.Has(ref.INode) {
			continue
		}
		en := incr.ExpertNode(ref.INode)
		if ref.Kind == "Always" {
			if !en.IsInRecomputeHeap() {
				m.add("C03", "always-not-requeued", fmt.Sprintf("Always node n%d is not queued after a successful pass", id))
			}
			continue
		}
		if en.IsValid() && en.IsStale() && ref.Kind != "Var" && !en.IsInRecomputeHeap() {
			m.add("C03", "missed-run", fmt.Sprintf("n%d is registered, valid and stale after a successful pass but is not queued", id))
		}
	}
}

// evalAtEnd evaluates from scratch using the values the vars held when the pass ended.
func (m *Monitor) evalAtEnd(id int) (int, bool) {
	// vars may have received a deferred write after the snapshot: substitute the snapshot
	saved := map[int]int{}
	for vid, ref := range m.E.Nodes {
		if ref != nil && ref.Kind == "Var" {
			if v, ok := m.endVals[vid]; ok && v != ref.Inc.Value() {
				saved[vid] = ref.Inc.Value()
			}
		}
	}
	if len(saved) > 0 {
		return 0, false // a deferred write landed: checked by the C12 stream instead
	}
	return m.eval(id, 0)
}

// structural is the independent consistency check built only on the expert accessors.
func (m *Monitor) structural(op Op) {
	e := m.E
	eg := incr.ExpertGraph(e.G)
	count := func(list []incr.INode, n *incr.Node) (c int) {
		for _, x := range list {
			if x.Node() == n {
				c++
			}
		}
		return
	}
	registered := 0
	sentinels := 0
	for id, ref := range e.Nodes {
		if ref == nil || ref.Recycled {
			continue
		}
		if ref.Kind == "Sentinel" {
			if ref.Watched >= 0 {
				sentinels++
			}
			continue
		}
		en := incr.ExpertNode(ref.INode)
		if !e.G.Has(ref.INode) {
			np := 0
			for _, p := range en.Parents() {
				if pid, ok := e.byPtr[p.Node()]; !ok || e.Nodes[pid] == nil || e.Nodes[pid].Kind != "Sentinel" {
					np++
				}
			}
			if np != 0 || len(en.Children()) != 0 {
				m.add("C06", "edges-on-unregistered", fmt.Sprintf("n%d is not registered but has %d input and %d dependent edges after %s",
					id, len(en.Parents()), len(en.Children()), op.String()))
				return
			}
			continue
		}
		registered++
		for _, p := range en.Parents() {
			pe := incr.ExpertNode(p)
			if pid, ok := e.byPtr[p.Node()]; ok && e.Nodes[pid] != nil && e.Nodes[pid].Kind == "Sentinel" {
				continue // a sentinel is linked as an input of the node it watches; not a dependency edge
			}
			if count(en.Parents(), p.Node()) != count(pe.Children(), ref.INode.Node()) {
				m.add("C05", "edge-asymmetry", fmt.Sprintf("edge n%d -> input %v recorded with different multiplicity on its endpoints after %s", id, p, op.String()))
				return
			}
			if en.Height() <= pe.Height() {
				m.add("C05", "height-order", fmt.Sprintf("n%d at height %d is not above its input %v at height %d after %s", id, en.Height(), p, pe.Height(), op.String()))
				return
			}
		}
		if en.IsInRecomputeHeap() && en.HeightInRecomputeHeap() != en.Height() {
			m.add("C05", "queued-height", fmt.Sprintf("n%d queued at height %d but has height %d", id, en.HeightInRecomputeHeap(), en.Height()))
			return
		}
	}
	// C06: the edges of a registered node are exactly its current inputs, each once per occurrence
	// (they depend on the current shape only, never on how many rebuilds led there)
	if !m.failedSince {
		for id, ref := range e.Nodes {
			if ref == nil || ref.Recycled || ref.Kind == "Sentinel" || !e.G.Has(ref.INode) {
				continue
			}
			var want []int
			switch {
			case m.invalided[id]:
			case ref.Kind == "BindMain":
				want = append(want, ref.Bind.B)
				if ref.Bind.Memo != nil {
					if ps := ref.Bind.Memo.Parents(); len(ps) == 2 {
						if rid, ok := e.byPtr[ps[1].Node()]; ok {
							want = append(want, rid)
						}
					}
				} else if r, ok := m.rhsRoot[ref.Bind.B]; ok && r >= 0 {
					want = append(want, r)
				}
			default:
				want = append(want, ref.Decl...)
			}
			sort.Ints(want)
			var got []int
			for _, p := range incr.ExpertNode(ref.INode).Parents() {
				if pid, ok := e.byPtr[p.Node()]; ok && e.Nodes[pid] != nil && e.Nodes[pid].Kind != "Sentinel" {
					got = append(got, pid)
				}
			}
			sort.Ints(got)
			if fmt.Sprint(got) != fmt.Sprint(want) {
				m.add("C06", "edges-vs-inputs", fmt.Sprintf("n%d is linked to inputs %v but its current inputs are %v after %s", id, got, want, op.String()))
				break
			}
		}
	}
	if int(eg.NumNodes()) != registered+len(e.Obs)+sentinels {
		m.add("C05", "node-count", fmt.Sprintf("NumNodes=%d but %d nodes, %d observers and %d sentinels are registered after %s", eg.NumNodes(), registered, len(e.Obs), sentinels, op.String()))
	}
	if eg.RecomputeHeapLen() != len(eg.RecomputeHeapIDs()) {
		m.add("C05", "heap-count", fmt.Sprintf("RecomputeHeapLen=%d but %d nodes are queued", eg.RecomputeHeapLen(), len(eg.RecomputeHeapIDs())))
	}
	for _, hid := range eg.RecomputeHeapIDs() {
		id, ok := e.byIdent[hid]
		if ok && e.Nodes[id] != nil && e.Nodes[id].Kind == "Sentinel" && e.Nodes[id].Watched >= 0 {
			continue // a watching sentinel is a root of its own and stays queued
		}
		if !ok || !e.Registered(id) {
			m.add("C05", "queued-unregistered", fmt.Sprintf("a queued node (n%d) is not registered after %s", id, op.String()))
			return
		}
	}
}

// Valid mirrors Engine.op_ok: the operation only refers to nodes of the right kind.
func (e *Exec) Valid(op Op) bool {
	user := func(id int) bool {
		return id >= 0 && id < len(e.Nodes) && e.Nodes[id] != nil && e.Nodes[id].Kind != "BindLhs" && e.Nodes[id].Kind != "Pair" && e.Nodes[id].Kind != "Sentinel"
	}
	kind := func(id int, k string) bool { return user(id) && e.Nodes[id].Kind == k }
	var tOK func(t *Texp, root bool) bool
	tOK = func(t *Texp, root bool) bool {
		switch t.K {
		case "TOuter":
			return user(t.N)
		case "TMap", "TCut":
			return tOK(t.E1, false)
		case "TMap2":
			return tOK(t.E1, false) && tOK(t.E2, false)
		case "TBind":
			if len(t.Cases) == 0 {
				return false
			}
			for _, c := range t.Cases {
				if !tOK(c, true) {
					return false
				}
			}
			return tOK(t.E1, false)
		case "TNil":
			return root
		}
		return true
	}
	switch op.K {
	case "NewMap", "NewCutoff", "NewAlways", "Observe":
		return user(op.A)
	case "NewMap2":
		return user(op.A) && user(op.B)
	case "NewMapN":
		for _, a := range op.Ins {
			if !user(a) {
				return false
			}
		}
	case "NewSentinel":
		return user(op.A)
	case "Unwatch": // also of a sentinel that no longer watches (a no-op)
		return op.A >= 0 && op.A < len(e.Nodes) && e.Nodes[op.A] != nil && e.Nodes[op.A].Kind == "Sentinel"
	case "FireSentinel":
		return op.A >= 0 && op.A < len(e.Nodes) && e.Nodes[op.A] != nil && e.Nodes[op.A].Kind == "Sentinel" && e.Nodes[op.A].Watched >= 0
	case "PurgeMemo", "ClearMemo":
		return kind(op.A, "BindMain") && e.Nodes[op.A].Bind.Memo != nil
	case "NewBind", "NewBindMemo", "NewBind2":
		if !user(op.A) || len(op.Cases) == 0 || (op.K == "NewBind2" && !user(op.B)) {
			return false
		}
		for _, c := range op.Cases {
			if !tOK(c, true) {
				return false
			}
		}
	case "Unobserve":
		or := e.Obs[op.A]
		return or != nil && or.O != nil
	case "SetVar", "UpdateVar":
		return kind(op.A, "Var")
	case "AddInput", "RemoveInput":
		return kind(op.A, "MapN") && user(op.B) && op.A != op.B
	case "Stabilize", "ParStabilize":
		for _, a := range op.Plan {
			if (a.Kind == "ASet" || a.Kind == "AUpdate") && !kind(a.Var, "Var") {
				return false
			}
			if a.Node < 0 {
				return false
			}
		}
	}
	return true
}

// Replay runs a fixed history with the monitors on; ok=false if some operation is ill-formed.
func Replay(maxHeight int, ops []Op) (e *Exec, m *Monitor, ok bool) {
	e = NewExec(maxHeight)
	for _, op := range ops {
		if op.K == "NewMapN" && len(op.Ins) > 32 {
			e.Sorted = true
		}
	}
	m = NewMonitor(e)
	for _, op := range ops {
		if !e.Valid(op) {
			return e, m, false
		}
		m.BeforeOp(op)
		s := e.Do(op)
		m.AfterOp(op, s)
		m.EdgesAfterRejectedAddInput(op, s)
		if s.Crashed || m.Rejected || (m.Cyclic && len(m.Findings) > 0) {
			// the state after a structural rejection (or of a cyclic program) is a recorded
			// finding; later operations on it say nothing more (and can hang)
			break
		}
	}
	return e, m, true
}

// Shrink minimises a failing history for the finding (prop, kind) by dropping operations.
func Shrink(maxHeight int, ops []Op, prop, kind string) []Op {
	fails := func(cand []Op) bool {
		_, m, ok := Replay(maxHeight, cand)
		if !ok {
			return false
		}
		for _, f := range m.Findings {
			if f.Prop == prop && f.Kind == kind {
				return true
			}
		}
		return false
	}
	cur := append([]Op(nil), ops...)
	for changed := true; changed; {
		changed = false
		for i := len(cur) - 1; i >= 0; i-- {
			cand := append(append([]Op(nil), cur[:i]...), cur[i+1:]...)
			if fails(cand) {
				cur = cand
				changed = true
			}
		}
	}
	return cur
}

// SortFindings orders findings for stable output.
func SortFindings(fs []Finding) {
	sort.SliceStable(fs, func(i, j int) bool {
		if fs[i].Prop != fs[j].Prop {
			return fs[i].Prop < fs[j].Prop
		}
		return fs[i].Kind < fs[j].Kind
	})
}

// dependsOn reports whether node a can read node b through declared inputs, bind inputs,
// current right-hand sides or any outer node a bind template mentions.
func (m *Monitor) dependsOn(a, b int, seen map[int]bool) bool {
	if a == b {
		return true
	}
	if seen[a] {
		return false
	}
	seen[a] = true
	ref := m.E.Nodes[a]
	if ref == nil {
		return false
	}
	for _, d := range ref.Decl {
		if m.dependsOn(d, b, seen) {
			return true
		}
	}
	if ref.Bind != nil {
		if m.dependsOn(ref.Bind.Lhs, b, seen) {
			return true
		}
		var outer func(t *Texp) bool
		outer = func(t *Texp) bool {
			if t == nil {
				return false
			}
			if t.K == "TOuter" && m.dependsOn(t.N, b, seen) {
				return true
			}
			if outer(t.E1) || outer(t.E2) {
				return true
			}
			for _, c := range t.Cases {
				if outer(c) {
					return true
				}
			}
			return false
		}
		for _, c := range ref.Bind.Cases {
			if outer(c) {
				return true
			}
		}
	}
	return false
}
