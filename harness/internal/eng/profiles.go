package eng

// ProfileFor returns the generator profile of a property stream.
func ProfileFor(prop string) Profile {
	p := DefaultProfile()
	p.Name = prop
	switch prop {
	case "static":
		p.WBind = 0
	case "faults":
		p.WFaultPass = 40
		p.WCancelled = 10 // a share of the passes runs with an already cancelled context
	case "midset":
		p.WMidSet = 50
		p.PairWrites = 35
	case "unobs":
		p.WMidSet = 50
		p.PairWrites = 25
		p.UnobsWrites = true
		p.WUnobserve = 14
	case "binds":
		p.WBind = 40
		p.Depth = 3
		p.WSet = 30
	case "cutoffs":
		p.Cutoffs = 35
		p.WBind = 10
	case "memo":
		p.WBind = 35
		p.Memo = 70
		p.WSet = 34
		p.WPurge = 4
		p.Depth = 2
	case "limit":
		p.MaxHeight = 6
		p.WBind = 25
	case "raise":
		// a reconvergent shape whose arms are raised unequally when a bind's right-hand side gets
		// taller in the middle of a pass: a -> b -> x and a -> x, all downstream of a bind main
		deep := &Texp{K: "TMap", F1: Fn1{1, 1}, E1: &Texp{K: "TMap", F1: Fn1{2, 0}, E1: &Texp{K: "TMap", F1: Fn1{1, 2},
			E1: &Texp{K: "TMap", F1: Fn1{3, 1}, E1: &Texp{K: "TX"}}}}}
		p.Prefix = []Op{
			{K: "NewVar", V: 0},
			{K: "NewBind", A: 0, Cases: []*Texp{{K: "TRet", Z: 1}, deep, {K: "TMap", F1: Fn1{1, 3}, E1: &Texp{K: "TX"}}}},
			{K: "NewMap", F1: Fn1{1, 1}, A: 2},           // n3 = a
			{K: "NewMap", F1: Fn1{2, 1}, A: 3},           // n4 = b
			{K: "NewMap2", F2: Fn2{1, 2, 0}, A: 4, B: 3}, // n5 = x = f(b, a)
			{K: "NewMap", F1: Fn1{1, 0}, A: 5},           // n6
			{K: "Observe", A: 6}, {K: "Stabilize"},
		}
		p.Ops = 30
		p.WNew = 8
		p.WBind = 30
		p.WObserve = 6
		p.WUnobserve = 3
		p.WSet = 38
		p.WStabilize = 36
	case "relink":
		// two binds over one selector, the lower one reading var n0 in case 0, the higher one in
		// case 1: flipping the selector makes n0 leave the graph and re-enter it within one pass;
		// writes to n0 from inside that pass must survive the round trip
		v := &Texp{K: "TMap", F1: Fn1{1, 2}, E1: &Texp{K: "TOuter", N: 0}}
		p.Prefix = []Op{
			{K: "NewVar", V: 1}, {K: "NewVar", V: 0}, {K: "NewMap", F1: Fn1{1, 0}, A: 1},
			{K: "NewBind", A: 1, Cases: []*Texp{v, {K: "TRet", Z: 5}}},
			{K: "NewBind", A: 2, Cases: []*Texp{{K: "TRet", Z: 6}, v}},
			{K: "Observe", A: 4}, {K: "Observe", A: 6}, {K: "Stabilize"},
		}
		p.Ops = 34
		p.WNew = 4
		p.WObserve = 4
		p.WUnobserve = 2
		p.WSet = 40
		p.WStabilize = 40
		p.WAddRemove = 0
		p.WMidSet = 85
		p.PairWrites = 10
	case "pardrop", "pardropfaults", "pardropmemo":
		// outer nodes n2..n4 of height 1 read only through the right-hand side of a bind whose
		// lhs-change node (n5) sits at the same height: writing n0 and the selector n1 before one
		// pass puts a stale outer node and the bind that drops it into one height block, in either
		// queue order. What the two stabilizers do with that block is where they can differ.
		p.Prefix = []Op{
			{K: "NewVar", V: 1}, {K: "NewVar", V: 0},
			{K: "NewMap", F1: Fn1{1, 2}, A: 0}, {K: "NewMap", F1: Fn1{2, 1}, A: 0}, {K: "NewCutoff", Cut: "CEq", A: 0},
			{K: "NewBind", A: 1, Cases: []*Texp{
				{K: "TMap", F1: Fn1{1, 1}, E1: &Texp{K: "TOuter", N: 2}},
				{K: "TMap2", F2: Fn2{1, 2, 0}, E1: &Texp{K: "TOuter", N: 3}, E2: &Texp{K: "TOuter", N: 2}},
				{K: "TRet", Z: 5},
				{K: "TOuter", N: 4},
			}},
			{K: "Observe", A: 6}, {K: "Stabilize"},
		}
		p.Ops = 30
		p.WNew = 5
		p.WBind = 10
		p.WObserve = 3
		p.WUnobserve = 1
		p.WSet = 50
		p.WStabilize = 38
		p.WAddRemove = 0
		if prop == "pardropfaults" {
			p.WFaultPass = 45
		}
		if prop == "pardropmemo" {
			// the same block shape with a MEMOIZED bind: the dropped outer nodes belong to cached
			// right-hand sides that come back into use when the selector returns to an earlier key
			p.Prefix[5].K = "NewBindMemo"
			p.Memo = 70
			p.WPurge = 4
		}
	case "alwaysfaults":
		// every history starts with an always node feeding a function node that is observed and
		// has been computed once (so that later passes recompute it directly after the always node)
		p.Prefix = []Op{{K: "NewVar", V: 2}, {K: "NewAlways", A: 0}, {K: "NewMap", F1: Fn1{2, 1}, A: 1}, {K: "Observe", A: 2}, {K: "Stabilize"}}
		p.WFaultPass = 55
		p.WCancelled = 8
		p.AlwaysShare = 18
		p.WBind = 8
		p.WStabilize = 28
	case "sentinelfaults":
		// sentinels whose own function fails or panics: always nodes that error
		p.Sentinels = 16
		p.WFaultPass = 45
		p.WBind = 8
		p.WUnobserve = 8
	case "sentinel":
		p.Sentinels = 14
		p.WBind = 10
		p.WUnobserve = 12
	case "bind2":
		p.Bind2 = 60
		p.WBind = 40
		p.WSet = 30
		p.Depth = 2
	case "chain":
		// an outer chain of single-input maps n0 -> n2 -> n3 -> n4 rising above the lhs-change node
		// (n5) of a bind whose right-hand sides are single-input nodes hanging off the chain: direct
		// recompute runs up such a chain ahead of the recompute heap
		p.Prefix = []Op{
			{K: "NewVar", V: 1}, {K: "NewVar", V: 0},
			{K: "NewMap", F1: Fn1{1, 1}, A: 0}, {K: "NewMap", F1: Fn1{1, 2}, A: 2}, {K: "NewMap", F1: Fn1{2, 1}, A: 3},
			{K: "NewBind", A: 1, Cases: []*Texp{
				{K: "TMap", F1: Fn1{2, 1}, E1: &Texp{K: "TOuter", N: 3}},
				{K: "TRet", Z: 5},
				{K: "TMap", F1: Fn1{1, 3}, E1: &Texp{K: "TOuter", N: 4}},
				{K: "TMap", F1: Fn1{3, 1}, E1: &Texp{K: "TMap", F1: Fn1{1, 1}, E1: &Texp{K: "TOuter", N: 2}}},
			}},
			{K: "Observe", A: 6}, {K: "Stabilize"},
		}
		p.Ops = 30
		p.WNew = 6
		p.WBind = 12
		p.WObserve = 3
		p.WUnobserve = 1
		p.WSet = 50
		p.WStabilize = 36
		p.WAddRemove = 0
	case "mix":
		// everything at once: binds and memoized binds, cutoffs, always nodes, MapN edits, observers
		// on scope nodes, failing / panicking / cancelled passes, mid-pass writes
		p.WBind = 18
		p.Memo = 20
		p.Cutoffs = 18
		p.AlwaysShare = 6
		p.WFaultPass = 22
		p.WCancelled = 6
		p.WMidSet = 25
		p.PairWrites = 10
		p.Inner = 15
		p.WAddRemove = 9
		p.WUnobserve = 10
	case "cutfaults":
		// cutoffs of every kind under faults and cancelled passes: a pass stopped after a cutoff's
		// input took a new value and before the cutoff was reached, then the retry
		p.Cutoffs = 35
		p.WFaultPass = 40
		p.WCancelled = 8
		p.WBind = 8
		p.WSet = 30
	case "readd":
		// cutoff nodes as MapN inputs, removed and added again: a cutoff that re-enters the graph
		// holding its retained value cuts off on its first recompute and queues nobody
		p.Prefix = []Op{
			{K: "NewVar", V: 3}, {K: "NewCutoff", Cut: "CEq", A: 0}, {K: "NewVar", V: 1},
			{K: "NewMapN", FN: "WSum", Ins: []int{2, 1}}, {K: "NewCutoff", Cut: "CEq", A: 2}, {K: "NewCutoff", Cut: "CParity", A: 0},
			{K: "Observe", A: 3}, {K: "Stabilize"},
		}
		p.Ops = 30
		p.WNew = 3
		p.WBind = 0
		p.WObserve = 2
		p.WUnobserve = 1
		p.WSet = 18
		p.WStabilize = 30
		p.WAddRemove = 46
	case "fanout":
		// hubs with one and with six observed dependents of one height, and a chain n0..n3 taller
		// than the hubs: MapN.AddInput(hub, chain node) raises the hub and all its dependents at once
		p.Prefix = []Op{
			{K: "NewVar", V: 1}, {K: "NewMap", F1: Fn1{1, 1}, A: 0}, {K: "NewMap", F1: Fn1{1, 2}, A: 1}, {K: "NewMap", F1: Fn1{2, 1}, A: 2},
			{K: "NewVar", V: 2}, {K: "NewMapN", FN: "Sum", Ins: []int{4}}, {K: "NewMap", F1: Fn1{1, 3}, A: 5},
			{K: "NewMapN", FN: "Sum", Ins: []int{4}},
			{K: "NewMap", F1: Fn1{1, 0}, A: 7}, {K: "NewMap", F1: Fn1{1, 1}, A: 7}, {K: "NewMap", F1: Fn1{1, 2}, A: 7},
			{K: "NewMap", F1: Fn1{1, 3}, A: 7}, {K: "NewMap", F1: Fn1{1, 4}, A: 7}, {K: "NewMap", F1: Fn1{1, 5}, A: 7},
			{K: "Observe", A: 6}, {K: "Observe", A: 8}, {K: "Observe", A: 9}, {K: "Observe", A: 10}, {K: "Observe", A: 11},
			{K: "Observe", A: 12}, {K: "Observe", A: 13}, {K: "Stabilize"},
		}
		p.Ops = 46
		p.WNew = 4
		p.WBind = 0
		p.WObserve = 2
		p.WUnobserve = 1
		p.WSet = 15
		p.WStabilize = 25
		p.WAddRemove = 53
	case "scoperead":
		// top-level nodes built on handles to nodes created inside bind scopes (live ones, and ones
		// whose generation has been discarded): when the scope is discarded the readers are invalidated
		p.ScopeRead = 25
		p.Inner = 20
		p.WBind = 35
		p.WSet = 32
		p.WObserve = 18
	case "deadobs":
		// like inner, and a share of the Observe operations goes to nodes of discarded generations
		p.Inner = 30
		p.DeadObs = 35
		p.WBind = 35
		p.WSet = 32
		p.WObserve = 18
	case "inner":
		p.Inner = 50
		p.WBind = 35
		p.WSet = 32
		p.WObserve = 16
	case "widekids":
		// one var feeding 66 observed maps: its dependent list is past the edge index threshold;
		// two dependents that take the hub twice (duplicate edges in the wide list) and observers
		// directly on the hub (its observer list and its dependent list are indexed separately);
		// then churn: unobserve / re-observe / unobserve again, input edits, writes and passes
		p.Prefix = []Op{{K: "NewVar", V: 1}}
		for i := 0; i < 66; i++ {
			p.Prefix = append(p.Prefix, Op{K: "NewMap", F1: Fn1{1, i % 7}, A: 0})
		}
		p.Prefix = append(p.Prefix, Op{K: "NewVar", V: 2},
			Op{K: "NewMapN", FN: "Sum", Ins: []int{0, 0, 67}}, Op{K: "NewMapN", FN: "WSum", Ins: []int{0, 67, 0}})
		for i := 0; i < 66; i++ {
			p.Prefix = append(p.Prefix, Op{K: "Observe", A: 1 + i})
		}
		p.Prefix = append(p.Prefix, Op{K: "Observe", A: 68}, Op{K: "Observe", A: 69}, Op{K: "Observe", A: 0}, Op{K: "Observe", A: 0}, Op{K: "Stabilize"})
		p.Ops = len(p.Prefix) + 28
		p.WNew = 2
		p.WObserve = 28
		p.WUnobserve = 34
		p.WSet = 14
		p.WStabilize = 16
		p.WAddRemove = 8
		p.Wide = true
	case "wide":
		p.Wide = true
		p.MapNShare = 35
		p.WAddRemove = 14
		p.WBind = 10
		p.Ops = 30
	case "widememo":
		// nodes wider than the edge-index threshold read through the right-hand sides of MEMOIZED
		// binds: a parked (cached, unused) right-hand side releases them, a returning key takes them back
		p.Wide = true
		p.MapNShare = 30
		p.WAddRemove = 8
		p.WBind = 30
		p.Memo = 70
		p.WPurge = 4
		p.WSet = 40
		p.Ops = 36
	case "reject":
		p.MaxHeight = 7
		p.WBind = 25
		p.Cycles = true
		p.WAddRemove = 12
		p.MapNShare = 25
	case "churn":
		p.WObserve = 20
		p.WUnobserve = 18
		p.WBind = 25
	}
	return p
}

// NonTrivial: some pass ran at least two node functions after a write.
func NonTrivial(e *Exec) bool {
	wrote := false
	for i, o := range e.Ops {
		if o.K == "SetVar" || o.K == "UpdateVar" {
			wrote = true
		}
		if (o.K == "Stabilize" || o.K == "ParStabilize") && wrote {
			n := 0
			for _, ev := range e.Samples[i].Events {
				if ev.K == "EvInvoked" || ev.K == "EvBindFn" {
					n++
				}
			}
			if n >= 2 {
				return true
			}
		}
	}
	return false
}
