package eng

import (
	"fmt"

	"verifharness/internal/hx"
)

// Profile weights the online generator; each property stream biases it differently.
type Profile struct {
	Name        string
	Ops         int // history length
	MaxHeight   int
	WNew        int // construct a node
	WBind       int // construct a bind (share of constructions, out of 100)
	WObserve    int
	WUnobserve  int
	WSet        int
	WStabilize  int
	WAddRemove  int
	WFaultPass  int // share of passes carrying a fault plan (out of 100)
	WMidSet     int // share of passes carrying a mid-pass Set/Update (out of 100)
	WCancelled  int // share of passes run with a cancelled context (out of 100)
	Depth       int // bind template nesting depth
	Always      bool
	Cutoffs     int // share of constructions that are cutoffs (out of 100)
	VarEqual    bool
	MapNShare   int
	UnobsWrites bool // allow writes to unobserved vars from inside a pass
	Cycles      bool // AddInput may close a cycle
	ScopeRead   int  // share of constructions that are a top-level Map/Map2 reading a node created inside a bind scope (a handle the user function handed out; out of 100)
	DeadObs     int  // share of Observe operations aimed at a node of a discarded bind generation (a handle the user function kept; out of 100)
	Inner       int  // share of Observe operations aimed at a node created inside a bind scope (out of 100)
	Wide        bool // MapN nodes with 65..150 inputs (past the edge index threshold)
	Sentinels   int  // weight of sentinel operations (Go-only stream)
	PairWrites  int  // share of mid-pass write plans that write one var twice from one node function (out of 100)
	AlwaysShare int  // extra share of constructions that are Always nodes (out of 100)
	Prefix      []Op // operations every history of the stream starts with
	Bind2       int  // share of binds that are Bind2 (Go-only stream: not modelled in Coq)
	Memo        int  // share of binds that are BindMemoized (out of 100)
	WPurge      int  // weight of cache Purge/Clear operations
}

func DefaultProfile() Profile {
	return Profile{Name: "default", Ops: 40, MaxHeight: 256, WNew: 30, WBind: 18, WObserve: 12, WUnobserve: 9, WSet: 22,
		WStabilize: 20, WAddRemove: 5, WFaultPass: 0, WMidSet: 0, WCancelled: 0, Depth: 2, Always: true, Cutoffs: 12,
		VarEqual: true, MapNShare: 15}
}

// Gen drives an Exec with randomly generated, well-formed operations.
type Gen struct {
	R *hx.Rand
	P Profile
	E *Exec
}

func (g *Gen) userNodes() []int {
	var out []int
	for id, ref := range g.E.Nodes {
		if ref != nil && ref.Kind != "BindLhs" && ref.Kind != "Pair" && ref.Kind != "Sentinel" && ref.Scope == -1 {
			out = append(out, id)
		}
	}
	return out
}

func (g *Gen) kindNodes(kind string) []int {
	var out []int
	for id, ref := range g.E.Nodes {
		if ref != nil && ref.Kind == kind && ref.Scope == -1 {
			out = append(out, id)
		}
	}
	return out
}

func (g *Gen) pick(xs []int) int { return xs[g.R.Intn(len(xs))] }

// pickBiased prefers recently created nodes so that graphs get deep.
func (g *Gen) pickBiased(xs []int) int {
	if len(xs) > 3 && g.R.Chance(1, 2) {
		return xs[len(xs)-1-g.R.Intn(3)]
	}
	return g.pick(xs)
}

func (g *Gen) fn1() Fn1 { return Fn1{g.R.Range(1, 3), g.R.Range(0, 4)} }
func (g *Gen) fn2() Fn2 {
	a := g.R.Range(1, 3)
	b := g.R.Range(1, 3)
	if a == b {
		b = a + 1
	}
	return Fn2{a, b, g.R.Range(0, 2)}
}
func (g *Gen) cut() string {
	return []string{"CEq", "CEq", "CParity", "CAlways", "CNever"}[g.R.Intn(5)]
}

func (g *Gen) texp(depth int, root bool) *Texp {
	outer := g.userNodes()
	k := g.R.Intn(100)
	if depth <= 0 {
		switch {
		case k < 25:
			return &Texp{K: "TRet", Z: g.R.Range(0, 6)}
		case k < 45 || len(outer) == 0:
			return &Texp{K: "TX"}
		default:
			return &Texp{K: "TOuter", N: g.pick(outer)}
		}
	}
	switch {
	case k < 8:
		return &Texp{K: "TRet", Z: g.R.Range(0, 6)}
	case k < 14:
		return &Texp{K: "TX"}
	case k < 30 && len(outer) > 0:
		return &Texp{K: "TOuter", N: g.pick(outer)}
	case k < 55:
		return &Texp{K: "TMap", F1: g.fn1(), E1: g.texp(depth-1, false)}
	case k < 75:
		return &Texp{K: "TMap2", F2: g.fn2(), E1: g.texp(depth-1, false), E2: g.texp(depth-1, false)}
	case k < 82:
		// history-dependent cutoffs are not functions of the inputs: kept out of templates
		return &Texp{K: "TCut", Cut: []string{"CEq", "CNever", "CAlways"}[g.R.Intn(3)], E1: g.texp(depth-1, false)}
	case k < 97:
		n := g.R.Range(1, 3)
		cs := make([]*Texp, n)
		for i := range cs {
			cs[i] = g.texp(depth-1, true)
		}
		return &Texp{K: "TBind", Cases: cs, E1: g.texp(depth-1, false)}
	default:
		if root {
			return &Texp{K: "TNil"}
		}
		return &Texp{K: "TX"}
	}
}

func (g *Gen) construct() (Op, bool) {
	nodes := g.userNodes()
	if len(nodes) < 2 || g.R.Chance(1, 6) {
		if g.R.Chance(1, 8) {
			return Op{K: "NewReturn", V: g.R.Range(0, 6)}, true
		}
		return Op{K: "NewVar", V: g.R.Range(0, 6), Eq: g.P.VarEqual && g.R.Chance(1, 3)}, true
	}
	if g.R.Intn(100) < g.P.ScopeRead {
		var inner []int
		for id, ref := range g.E.Nodes {
			if ref != nil && ref.Scope != -1 && ref.Inc != nil && !ref.Recycled && ref.Kind != "BindLhs" && ref.Kind != "Pair" && g.inputsIntact(id, 0) {
				inner = append(inner, id)
			}
		}
		if len(inner) > 0 {
			a := g.pick(inner)
			if g.R.Chance(1, 2) {
				return Op{K: "NewMap2", F2: g.fn2(), A: a, B: g.pick(nodes)}, true
			}
			return Op{K: "NewMap", F1: g.fn1(), A: a}, true
		}
	}
	k := g.R.Intn(100)
	switch {
	case k < g.P.WBind:
		n := g.R.Range(1, 3)
		cs := make([]*Texp, n)
		for i := range cs {
			cs[i] = g.texp(g.P.Depth, true)
		}
		if g.R.Intn(100) < g.P.Bind2 {
			return Op{K: "NewBind2", Cases: cs, A: g.pickBiased(nodes), B: g.pick(nodes)}, true
		}
		if g.R.Intn(100) < g.P.Memo {
			return Op{K: "NewBindMemo", Cases: cs, A: g.pickBiased(nodes)}, true
		}
		return Op{K: "NewBind", Cases: cs, A: g.pickBiased(nodes)}, true
	case k < g.P.WBind+g.P.Cutoffs:
		return Op{K: "NewCutoff", Cut: g.cut(), A: g.pickBiased(nodes)}, true
	case k < g.P.WBind+g.P.Cutoffs+g.P.MapNShare:
		n := g.R.Range(0, 4)
		if g.P.Wide && g.R.Chance(1, 2) {
			n = g.R.Range(60, 150)
		}
		ins := make([]int, n)
		for i := range ins {
			ins[i] = g.pick(nodes)
		}
		return Op{K: "NewMapN", FN: []string{"Sum", "WSum"}[g.R.Intn(2)], Ins: ins}, true
	case k < g.P.WBind+g.P.Cutoffs+g.P.MapNShare+4+g.P.AlwaysShare && g.P.Always:
		return Op{K: "NewAlways", A: g.pickBiased(nodes)}, true
	case k < 70:
		a := g.pickBiased(nodes)
		b := g.pick(nodes)
		if g.R.Chance(1, 5) {
			b = a // duplicated input
		}
		return Op{K: "NewMap2", F2: g.fn2(), A: a, B: b}, true
	default:
		return Op{K: "NewMap", F1: g.fn1(), A: g.pickBiased(nodes)}, true
	}
}

// faultTargets: nodes currently registered that have a user function.
func (g *Gen) fnNodes() (fns []int, cuts []int) {
	for id, ref := range g.E.Nodes {
		if ref != nil && ref.Kind == "Sentinel" {
			// a sentinel is registered with the graph as a sentinel (Graph.Has does not know it); its
			// function runs in every pass once the node it watches is in the graph
			if g.P.Sentinels > 0 && g.P.WFaultPass > 0 && ref.Watched >= 0 && g.E.Registered(ref.Watched) {
				fns = append(fns, id)
			}
			continue
		}
		if ref == nil || !g.E.Registered(id) {
			continue
		}
		switch ref.Kind {
		case "Map", "Map2", "MapN", "BindLhs":
			fns = append(fns, id)
		case "Cutoff":
			cuts = append(cuts, id)
		}
	}
	return
}

func (g *Gen) plan() []Action {
	var plan []Action
	fns, cuts := g.fnNodes()
	vars := g.kindNodes("Var")
	if g.R.Intn(100) < g.P.WMidSet && g.R.Intn(100) < g.P.PairWrites && len(fns) > 0 && len(vars) > 0 {
		// one node function writes the same var twice: away from its value and back to it
		v := g.pick(vars)
		if g.P.UnobsWrites || g.E.Registered(v) {
			cur := g.E.Nodes[v].Inc.Value()
			at := g.pick(fns)
			if g.R.Chance(1, 2) {
				plan = append(plan, Action{Node: at, Which: "WFn", Kind: "ASet", Var: v, X: norm(cur + g.R.Range(1, 5))},
					Action{Node: at, Which: "WFn", Kind: "ASet", Var: v, X: cur})
			} else {
				d := g.R.Range(1, 5)
				plan = append(plan, Action{Node: at, Which: "WFn", Kind: "AUpdate", Var: v, X: d},
					Action{Node: at, Which: "WFn", Kind: "AUpdate", Var: v, X: Modulus - d})
			}
		}
	} else if g.R.Intn(100) < g.P.WMidSet && len(fns) > 0 && len(vars) > 0 {
		n := g.R.Range(1, 2)
		for i := 0; i < n; i++ {
			v := g.pick(vars)
			if !g.P.UnobsWrites && !g.E.Registered(v) {
				continue
			}
			a := Action{Node: g.pick(fns), Which: "WFn", Kind: "ASet", Var: v, X: g.R.Range(0, 6)}
			if g.R.Chance(1, 3) {
				a.Kind = "AUpdate"
				a.X = g.R.Range(1, 3)
			}
			plan = append(plan, a)
		}
	}
	if g.R.Intn(100) < g.P.WFaultPass && len(fns)+len(cuts) > 0 {
		kind := "AFailErr"
		if g.R.Chance(1, 3) {
			kind = "AFailPanic"
		}
		var underAlways []int
		if g.P.AlwaysShare > 0 {
			for _, id := range fns {
				for _, d := range g.E.Nodes[id].Decl {
					if g.E.Nodes[d] != nil && g.E.Nodes[d].Kind == "Always" {
						underAlways = append(underAlways, id)
					}
				}
			}
		}
		if len(underAlways) > 0 && g.R.Chance(2, 3) {
			plan = append(plan, Action{Node: g.pick(underAlways), Which: "WFn", Kind: kind})
		} else if len(cuts) > 0 && g.R.Chance(1, 5) {
			plan = append(plan, Action{Node: g.pick(cuts), Which: "WCut", Kind: kind})
		} else if len(fns) > 0 {
			plan = append(plan, Action{Node: g.pick(fns), Which: "WFn", Kind: kind})
		}
	}
	return plan
}

// Next chooses the next well-formed operation.
func (g *Gen) Next() Op {
	p := g.P
	total := p.WNew + p.WObserve + p.WUnobserve + p.WSet + p.WStabilize + p.WAddRemove
	for tries := 0; tries < 50; tries++ {
		if p.Sentinels > 0 && g.R.Intn(total+p.Sentinels) >= total {
			var sents []int
			for id, ref := range g.E.Nodes {
				if ref != nil && ref.Kind == "Sentinel" && ref.Watched >= 0 {
					sents = append(sents, id)
				}
			}
			nodes := g.userNodes()
			switch k := g.R.Intn(10); {
			case (k < 3 || len(sents) == 0) && len(nodes) > 0:
				return Op{K: "NewSentinel", A: g.pickBiased(nodes)}
			case k < 9 && len(sents) > 0:
				return Op{K: "FireSentinel", A: g.pick(sents)}
			case len(sents) > 0:
				if g.R.Chance(1, 6) {
					// a second Unwatch of a sentinel that was already unwatched: must be a no-op
					var gone []int
					for id, ref := range g.E.Nodes {
						if ref != nil && ref.Kind == "Sentinel" && ref.Watched < 0 {
							gone = append(gone, id)
						}
					}
					if len(gone) > 0 {
						return Op{K: "Unwatch", A: g.pick(gone)}
					}
				}
				return Op{K: "Unwatch", A: g.pick(sents)}
			}
		}
		if p.WPurge > 0 && g.R.Intn(total+p.WPurge) >= total {
			var memos []int
			for id, ref := range g.E.Nodes {
				if ref != nil && ref.Kind == "BindMain" && ref.Bind.Memo != nil && ref.Scope == -1 {
					memos = append(memos, id)
				}
			}
			if len(memos) > 0 {
				if g.R.Chance(1, 4) {
					return Op{K: "ClearMemo", A: g.pick(memos)}
				}
				return Op{K: "PurgeMemo", A: g.pick(memos), V: g.R.Range(0, 6)}
			}
		}
		k := g.R.Intn(total)
		switch {
		case k < p.WNew:
			if op, ok := g.construct(); ok {
				return op
			}
		case k < p.WNew+p.WObserve:
			nodes := g.userNodes()
			if g.R.Intn(100) < p.DeadObs {
				// a node of a discarded right-hand side (no longer in the graph, invalidated), whose
				// storage the library has not reissued: the user function kept the handle
				var dead []int
				for id, ref := range g.E.Nodes {
					if ref != nil && ref.Scope != -1 && ref.Inc != nil && !ref.Recycled && ref.Kind != "BindLhs" && ref.Kind != "Pair" && !g.E.Registered(id) && g.E.Dead(id) && g.inputsIntact(id, 0) {
						dead = append(dead, id)
					}
				}
				if len(dead) > 0 {
					sortInts(dead)
					return Op{K: "Observe", A: g.pick(dead)}
				}
			}
			if g.R.Intn(100) < p.Inner {
				// a node a bind function created, still part of the graph (a handle the user
				// function could have kept); never a handle whose storage the library reissued
				var inner []int
				for id, ref := range g.E.Nodes {
					if ref != nil && ref.Scope != -1 && ref.Inc != nil && !ref.Recycled && g.E.Registered(id) {
						inner = append(inner, id)
					}
				}
				if len(inner) > 0 {
					return Op{K: "Observe", A: g.pick(inner)}
				}
			}
			if len(nodes) > 0 {
				return Op{K: "Observe", A: g.pickBiased(nodes)}
			}
		case k < p.WNew+p.WObserve+p.WUnobserve:
			var held []int
			for id, or := range g.E.Obs {
				if or.O != nil {
					held = append(held, id)
				}
			}
			if len(held) > 0 {
				sortInts(held)
				return Op{K: "Unobserve", A: g.pick(held)}
			}
		case k < p.WNew+p.WObserve+p.WUnobserve+p.WSet:
			vars := g.kindNodes("Var")
			if len(vars) > 0 {
				if g.R.Chance(1, 5) {
					return Op{K: "UpdateVar", A: g.pick(vars), V: g.R.Range(1, 3)}
				}
				return Op{K: "SetVar", A: g.pick(vars), V: g.R.Range(0, 6)}
			}
		case k < p.WNew+p.WObserve+p.WUnobserve+p.WSet+p.WStabilize:
			if g.R.Intn(100) < p.WCancelled {
				return Op{K: "StabilizeCancelled"}
			}
			return Op{K: "Stabilize", Plan: g.plan()}
		default:
			mapns := g.kindNodes("MapN")
			nodes := g.userNodes()
			if len(mapns) > 0 {
				m := g.pick(mapns)
				decl := g.E.Nodes[m].Decl
				if len(decl) > 0 && g.R.Chance(1, 2) {
					return Op{K: "RemoveInput", A: m, B: g.pick(decl)}
				}
				// only nodes created before the MapN, so that no cycle is possible -- except in
				// the stream that is after rejections
				var earlier []int
				for _, n := range nodes {
					if n < m || (g.P.Cycles && n != m) {
						earlier = append(earlier, n)
					}
				}
				if len(earlier) > 0 {
					return Op{K: "AddInput", A: m, B: g.pick(earlier)}
				}
			}
		}
	}
	return Op{K: "NewVar", V: 1}
}

// inputsIntact: no declared input of the node (transitively) is a handle whose storage the
// library has reissued to a newer node. Linking a dead node whose input is such a handle
// would link it under an unrelated live node: the handle's identity is gone.
func (g *Gen) inputsIntact(id, depth int) bool {
	ref := g.E.Nodes[id]
	if ref == nil || ref.Recycled || depth > 64 {
		return false
	}
	for _, d := range ref.Decl {
		if !g.inputsIntact(d, depth+1) {
			return false
		}
	}
	return true
}

func sortInts(xs []int) {
	for i := 1; i < len(xs); i++ {
		for j := i; j > 0 && xs[j-1] > xs[j]; j-- {
			xs[j-1], xs[j] = xs[j], xs[j-1]
		}
	}
}

// RunRandom generates and executes one history.
func RunRandom(r *hx.Rand, p Profile) (*Exec, *Monitor) {
	return RunRandomPar(r, p, 0)
}

// RunRandomPar generates a history online; with par > 0 on a graph driven by ParallelStabilize
// (every generated pass is a ParStabilize). Used for fault streams, where a serial twin is not
// comparable operation by operation (a failing block runs to its end in parallel).
func RunRandomPar(r *hx.Rand, p Profile, par int) (*Exec, *Monitor) {
	e := NewExec(p.MaxHeight)
	if par > 0 {
		e = NewExecPar(p.MaxHeight, par)
	}
	e.Sorted = p.Wide
	m := NewMonitor(e)
	g := &Gen{R: r, P: p, E: e}
	for i := 0; i < p.Ops; i++ {
		var op Op
		if i < len(p.Prefix) {
			op = p.Prefix[i]
		} else {
			op = g.Next()
		}
		if par > 0 && op.K == "Stabilize" {
			op.K = "ParStabilize"
		}
		m.BeforeOp(op)
		s := e.Do(op)
		m.AfterOp(op, s)
		if s.Crashed {
			break
		}
		if m.Cyclic && (len(m.Findings) > 0 || len(e.Ops) > m.CyclicAt+6) {
			break
		}
		m.EdgesAfterRejectedAddInput(op, s)
		if m.Rejected {
			// the state after a structural rejection is a recorded finding; what later
			// operations do on it says nothing more (and can hang)
			break
		}
	}
	return e, m
}

// RunTwin replays a serially generated history on a graph driven by ParallelStabilize and
// compares the two executions after every operation (the C04 oracle, evaluated on the
// implementation): observer values, values of top-level nodes, node count, number of
// registered nodes, the set of top-level nodes reported as updated, and the result class.
func RunTwin(serial *Exec, parallelism int, compare bool) (par *Exec, mon *Monitor, findings []Finding) {
	par = NewExecPar(serial.MaxHeight, parallelism)
	mon = NewMonitor(par)
	heldDiverged := map[int]bool{}
	for i, op := range serial.Ops {
		if op.K == "Stabilize" {
			op.K = "ParStabilize"
		}
		mon.BeforeOp(op)
		s := par.Do(op)
		mon.AfterOp(op, s)
		if !compare {
			// fault streams: a failing block runs to its end under ParallelStabilize but stops at
			// the first error serially, so the two executions legitimately differ until the retry
			if s.Crashed {
				break
			}
			continue
		}
		ref := serial.Samples[i]
		differ := func(what string) {
			findings = append(findings, Finding{Prop: "C04", Kind: "parallel-differs:" + what, Op: i + 1,
				What: fmt.Sprintf("after %s (operation %d) ParallelStabilize(parallelism %d) and Stabilize disagree on %s", op.String(), i, parallelism, what)})
		}
		if s.Crashed != ref.Crashed || s.Class != ref.Class {
			differ(fmt.Sprintf("the result (%s vs %s)", s.Class, ref.Class))
			break
		}
		if s.Crashed {
			break
		}
		if (op.K == "ParStabilize" || op.K == "StabilizeCancelled") && fmt.Sprint(s.ObsVals) != fmt.Sprint(ref.ObsVals) {
			// after a pass: between passes the observer of a stale node shows what the node held
			// when it last left the graph, which the property does not speak of
			differ("observer values")
			findings[len(findings)-1].What += fmt.Sprintf(" (parallel %v, serial %v)", s.ObsVals, ref.ObsVals)
		}
		if s.NumNodes != ref.NumNodes || len(s.Reg) != len(ref.Reg) {
			differ("the number of registered nodes")
		}
		// Nodes are named by creation index. When the two runs created the nodes of this operation in a
		// different order (two memoized binds of one height block build their right-hand sides in the
		// enclosing scope, in queue order, and the queue order inside a height is not the same under the
		// two stabilizers), index k no longer names the same node in both: what follows compares by
		// index, and later operations address nodes by index, so the comparison ends here. Observer
		// values and the counts above do not depend on the naming and have been compared.
		lo := 0
		if i > 0 {
			lo = serial.Samples[i-1].Next
		}
		renamed := false
		for id := lo; id < ref.Next && id < s.Next; id++ {
			var a, b *NRef
			if id < len(par.Nodes) {
				a = par.Nodes[id]
			}
			if id < len(serial.Nodes) {
				b = serial.Nodes[id]
			}
			if (a == nil) != (b == nil) || (a != nil && (a.Kind != b.Kind || a.Scope != b.Scope || fmt.Sprint(a.Decl) != fmt.Sprint(b.Decl))) {
				renamed = true
			}
		}
		if renamed {
			break
		}
		top := func(e *Exec, sm Sample) (vals [][2]int, upd []int) {
			inGraph := map[int]bool{}
			for _, id := range sm.Reg {
				inGraph[id] = true
			}
			for _, v := range sm.Vals {
				// only nodes that are part of the graph: what a node that nothing can reach
				// holds is not observable (serially it may have been recomputed just before a
				// bind dropped it, in parallel the bind goes first)
				if r := e.Nodes[v[0]]; r != nil && r.Scope == -1 && inGraph[v[0]] {
					vals = append(vals, v)
				}
			}
			for _, ev := range sm.Raw {
				if ev.K == "EvUpd" && e.Nodes[ev.N] != nil && e.Nodes[ev.N].Scope == -1 {
					upd = append(upd, ev.N)
				}
			}
			sortInts(upd)
			return
		}
		v1, u1 := top(par, s)
		v2, u2 := top(serial, ref)
		isPass := op.K == "ParStabilize" || op.K == "StabilizeCancelled"
		if isPass && fmt.Sprint(v1) != fmt.Sprint(v2) {
			// between passes a stale node shows what it held when it last left the graph, which the
			// property does not speak of; after a pass every registered node has been brought up to date
			only := len(v1) == len(v2)
			for k := range v1 {
				if only && v1[k] != v2[k] && !(v1[k][0] == v2[k][0] && heldDiverged[v1[k][0]]) {
					only = false
				}
			}
			if only {
				differ("node-values@node-dropped-while-stale")
			} else {
				differ("node values")
			}
			findings[len(findings)-1].What += fmt.Sprintf(" (parallel %v, serial %v)", v1, v2)
		}
		// a node that a bind drops in the pass in which it is stale, sitting at the height of the
		// bind's lhs-change: serially it recomputes first when it was queued ahead of the bind, in
		// parallel the structural nodes of a block go first and it never runs. What it holds while
		// out of the graph then differs, and so does whether it reports an update when it returns.
		ran := func(sm Sample) map[int]bool {
			r := map[int]bool{}
			for _, ev := range sm.Raw {
				if ev.K == "EvInvoked" || ev.K == "EvCutoff" {
					r[ev.N] = true
				}
			}
			return r
		}
		r1, r2 := ran(s), ran(ref)
		if fmt.Sprint(u1) != fmt.Sprint(u2) {
			only := true
			in := func(l []int, x int) bool {
				for _, y := range l {
					if y == x {
						return true
					}
				}
				return false
			}
			// a node dropped and picked up again within the pass: serially it may have recomputed
			// before it was dropped and then reports no update (the recorded C13 finding)
			relinked := map[int]bool{}
			for _, sm := range []Sample{s, ref} {
				un := map[int]bool{}
				for _, ev := range sm.Raw {
					if ev.K == "EvUnnec" {
						un[ev.N] = true
					}
					if ev.K == "EvNec" && un[ev.N] {
						relinked[ev.N] = true
					}
				}
			}
			onlyRelinked := true
			for _, x := range append(append([]int(nil), u1...), u2...) {
				if in(u1, x) != in(u2, x) && !heldDiverged[x] {
					only = false
				}
				if in(u1, x) != in(u2, x) && !relinked[x] {
					onlyRelinked = false
				}
			}
			if onlyRelinked {
				differ("updated-set@relinked-in-pass")
			} else if only {
				differ("updated-set@node-dropped-while-stale")
			} else {
				differ("the set of nodes reported as updated")
			}
			findings[len(findings)-1].What += fmt.Sprintf(" (reported updated: parallel %v, serial %v)", u1, u2)
		}
		// marked only now: in the pass that drops the node the two stabilizers must still agree on
		// what is reported as updated (the dropped node reports nothing under either)
		for _, ev := range s.Raw {
			if ev.K == "EvUnnec" && r1[ev.N] != r2[ev.N] {
				heldDiverged[ev.N] = true
			}
		}
		if len(s.Heap) != len(ref.Heap) {
			differ("the number of queued nodes")
		}
		if len(findings) > 0 {
			break
		}
		if s.Next != ref.Next {
			// the two runs have created different numbers of nodes (serially a bind queued ahead of
			// the bind that drops it still builds a right-hand side, in parallel the dropping bind
			// may go first): later operations name nodes by creation index, so from here on the
			// two histories are no longer the same program
			break
		}
	}
	findings = append(findings, mon.Findings...)
	return
}

// MemoKeyHistories enumerates key sequences through one BindMemoized (property C09).
func MemoKeyHistories(maxLen int, r *hx.Rand) [][]Op {
	prefix := []Op{
		{K: "NewVar", V: 0},                // n0: the key
		{K: "NewVar", V: 3},                // n1: an outer input
		{K: "NewMap", F1: Fn1{2, 1}, A: 1}, // n2: derived from the outer input
	}
	cases := []*Texp{
		{K: "TRet", Z: 7},
		{K: "TMap", F1: Fn1{3, 2}, E1: &Texp{K: "TOuter", N: 2}},
		{K: "TBind", Cases: []*Texp{{K: "TRet", Z: 1}, {K: "TOuter", N: 1}, {K: "TMap", F1: Fn1{1, 1}, E1: &Texp{K: "TX"}}}, E1: &Texp{K: "TOuter", N: 1}},
		{K: "TMap2", F2: Fn2{1, 2, 0}, E1: &Texp{K: "TX"}, E2: &Texp{K: "TOuter", N: 2}},
	}
	prefix = append(prefix, Op{K: "NewBindMemo", Cases: cases, A: 0}, Op{K: "Observe", A: 4}) // n3 lhs-change, n4 main, o5
	var out [][]Op
	var rec func(seq []int)
	emit := func(seq []int, extraAt int, extra Op) {
		h := append([]Op(nil), prefix...)
		for i, k := range seq {
			if i == extraAt {
				h = append(h, extra)
			}
			h = append(h, Op{K: "SetVar", A: 0, V: k}, Op{K: "Stabilize"})
		}
		h = append(h, Op{K: "Unobserve", A: 5}, Op{K: "Stabilize"})
		out = append(out, h)
	}
	rec = func(seq []int) {
		if len(seq) > 0 {
			emit(seq, -1, Op{})
			sampled := len(seq) > 5
			for pos := 0; pos < len(seq); pos++ {
				if sampled && !r.Chance(1, 6) {
					continue
				}
				emit(seq, pos, Op{K: "SetVar", A: 1, V: (pos + len(seq)) % 7})
				if pos%2 == 0 {
					emit(seq, pos, Op{K: "PurgeMemo", A: 4, V: seq[pos]})
				} else {
					emit(seq, pos, Op{K: "ClearMemo", A: 4})
				}
			}
		}
		if len(seq) == maxLen {
			return
		}
		for k := 0; k < 4; k++ {
			rec(append(seq[:len(seq):len(seq)], k))
		}
	}
	rec(nil)
	return out
}

// DagHistories enumerates edge insertions into all small DAGs (property C18, second half):
// k MapN nodes without inputs, some observed, then every sequence of up to maxLen
// AddInput/RemoveInput operations between them (cycles included: they must be rejected).
func DagHistories(k, maxLen int) [][]Op {
	var prefix []Op
	for i := 0; i < k; i++ {
		prefix = append(prefix, Op{K: "NewMapN", FN: "Sum"})
	}
	prefix = append(prefix, Op{K: "NewVar", V: 1}) // n_k: a leaf every node may read
	for i := 0; i < k; i++ {
		prefix = append(prefix, Op{K: "Observe", A: i})
	}
	var alpha []Op
	for a := 0; a < k; a++ {
		for b := 0; b <= k; b++ {
			if a != b {
				alpha = append(alpha, Op{K: "AddInput", A: a, B: b})
			}
		}
	}
	var out [][]Op
	var rec func(seq []Op, edges map[[2]int]bool)
	rec = func(seq []Op, edges map[[2]int]bool) {
		if len(seq) > 0 {
			h := append(append([]Op(nil), prefix...), seq...)
			h = append(h, Op{K: "Stabilize"})
			out = append(out, h)
		}
		if len(seq) == maxLen {
			return
		}
		for _, o := range alpha {
			e := [2]int{o.A, o.B}
			next := map[[2]int]bool{}
			for k2 := range edges {
				next[k2] = true
			}
			op := o
			if edges[e] {
				op = Op{K: "RemoveInput", A: o.A, B: o.B}
				delete(next, e)
			} else {
				next[e] = true
			}
			rec(append(seq[:len(seq):len(seq)], op), next)
		}
	}
	rec(nil, map[[2]int]bool{})
	return out
}

// RunEraseTwin replays a history on the cutoff-free twin (every CutoffEqual an identity map,
// every VarEqual a plain Var) and compares observer values after every successful pass: the
// metamorphic oracle of C11, evaluated on the implementation.
func RunEraseTwin(orig *Exec) (findings []Finding) {
	twin := NewExec(orig.MaxHeight)
	twin.EraseEq = true
	for i, op := range orig.Ops {
		if !twin.Valid(op) {
			return
		}
		s := twin.Do(op)
		ref := orig.Samples[i]
		if s.Crashed || ref.Crashed {
			return
		}
		if s.Next != ref.Next {
			// the two runs have created different numbers of nodes (a VarEqual no-op write spares a
			// bind rebuild that the plain Var performs): later operations name nodes by creation
			// index, so the histories are no longer the same program. Inconclusive from here on.
			return
		}
		isPass := op.K == "Stabilize" || op.K == "StabilizeCancelled"
		if s.Class != ref.Class {
			// (a pass run with a cancelled context returns nil when nothing is queued and the context's
			// error otherwise: whether something is queued legitimately differs between the twins)
			if isPass && op.K != "StabilizeCancelled" && (s.Class == "XOk" || ref.Class == "XOk") && len(op.Plan) == 0 {
				findings = append(findings, Finding{Prop: "C11", Kind: "twin-result-differs", Op: i + 1,
					What: fmt.Sprintf("%s returns %s with equality cutoffs / VarEqual and %s without", op.String(), ref.Class, s.Class)})
			}
			return
		}
		if isPass && s.Class == "XOk" && fmt.Sprint(s.ObsVals) != fmt.Sprint(ref.ObsVals) {
			findings = append(findings, Finding{Prop: "C11", Kind: "twin-values-differ", Op: i + 1,
				What: fmt.Sprintf("after %s (operation %d) observers read %v with CutoffEqual/VarEqual and %v in the twin without them", op.String(), i, ref.ObsVals, s.ObsVals)})
			return
		}
	}
	return
}
