// Package eng interprets engine-model histories (the op language of coq/theories/EngineDefs.v)
// on the real go-incr library, records the projected observables after every operation and
// prints them as Gallina for replay on the Coq model.
package eng

import (
	"fmt"
	"strings"

	"verifharness/internal/hx"
)

const Modulus = 11

func norm(x int) int { return ((x % Modulus) + Modulus) % Modulus }

// Fn1 is Aff a b; Fn2 is Lin2 a b c.
type Fn1 struct{ A, B int }
type Fn2 struct{ A, B, C int }

func (f Fn1) Ap(x int) int    { return norm(f.A*x + f.B) }
func (f Fn2) Ap(x, y int) int { return norm(f.A*x + f.B*y + f.C) }
func (f Fn1) Coq() string     { return fmt.Sprintf("(Aff %s %s)", hx.Z(int64(f.A)), hx.Z(int64(f.B))) }
func (f Fn2) Coq() string {
	return fmt.Sprintf("(Lin2 %s %s %s)", hx.Z(int64(f.A)), hx.Z(int64(f.B)), hx.Z(int64(f.C)))
}

// FnN: "Sum" | "WSum"
func ApN(f string, xs []int) int {
	acc := 0
	for i, x := range xs {
		if f == "WSum" {
			acc += (i + 1) * x
		} else {
			acc += x
		}
	}
	return norm(acc)
}

// Cut: "CEq" | "CAlways" | "CNever" | "CParity"
func ApCut(c string, old, new int) bool {
	switch c {
	case "CEq":
		return old == new
	case "CAlways":
		return true
	case "CNever":
		return false
	default:
		return norm2(old) == norm2(new)
	}
}

func norm2(x int) int { return ((x % 2) + 2) % 2 }

// Texp is a bind template.
type Texp struct {
	K     string // TRet TX TOuter TMap TMap2 TCut TBind TNil
	Z     int    // TRet constant
	N     int    // TOuter node
	F1    Fn1
	F2    Fn2
	Cut   string
	E1    *Texp
	E2    *Texp
	Cases []*Texp
}

func (t *Texp) Coq() string {
	switch t.K {
	case "TRet":
		return fmt.Sprintf("(TRet %s)", hx.Z(int64(t.Z)))
	case "TX":
		return "TX"
	case "TOuter":
		return fmt.Sprintf("(TOuter %d%%nat)", t.N)
	case "TMap":
		return fmt.Sprintf("(TMap %s %s)", t.F1.Coq(), t.E1.Coq())
	case "TMap2":
		return fmt.Sprintf("(TMap2 %s %s %s)", t.F2.Coq(), t.E1.Coq(), t.E2.Coq())
	case "TCut":
		return fmt.Sprintf("(TCut %s %s)", t.Cut, t.E1.Coq())
	case "TBind":
		return fmt.Sprintf("(TBind %s %s)", casesCoq(t.Cases), t.E1.Coq())
	default:
		return "TNil"
	}
}

func (t *Texp) String() string {
	switch t.K {
	case "TRet":
		return fmt.Sprintf("ret(%d)", t.Z)
	case "TX":
		return "ret(x)"
	case "TOuter":
		return fmt.Sprintf("n%d", t.N)
	case "TMap":
		return fmt.Sprintf("map[%d,%d](%v)", t.F1.A, t.F1.B, t.E1)
	case "TMap2":
		return fmt.Sprintf("map2[%d,%d,%d](%v,%v)", t.F2.A, t.F2.B, t.F2.C, t.E1, t.E2)
	case "TCut":
		return fmt.Sprintf("cutoff[%s](%v)", t.Cut, t.E1)
	case "TBind":
		return fmt.Sprintf("bind(%v){%s}", t.E1, casesStr(t.Cases))
	default:
		return "nil"
	}
}

func casesCoq(cs []*Texp) string {
	parts := make([]string, len(cs))
	for i, c := range cs {
		parts[i] = c.Coq()
	}
	return "[" + strings.Join(parts, "; ") + "]"
}

func casesStr(cs []*Texp) string {
	parts := make([]string, len(cs))
	for i, c := range cs {
		parts[i] = c.String()
	}
	return strings.Join(parts, " | ")
}

// Action is one entry of a pass plan.
type Action struct {
	Node  int
	Which string // WFn WCut
	Kind  string // AFailErr AFailPanic ASet AUpdate
	Var   int
	X     int
}

func (a Action) Coq() string {
	var act string
	switch a.Kind {
	case "AFailErr":
		act = "AFail FErr"
	case "AFailPanic":
		act = "AFail FPanic"
	case "ASet":
		act = fmt.Sprintf("ASet %d%%nat %s", a.Var, hx.Z(int64(a.X)))
	default:
		act = fmt.Sprintf("AUpdate %d%%nat %s", a.Var, hx.Z(int64(a.X)))
	}
	return fmt.Sprintf("(%d%%nat, %s, %s)", a.Node, a.Which, act)
}

func (a Action) String() string {
	switch a.Kind {
	case "ASet":
		return fmt.Sprintf("n%d.%s:set(n%d,%d)", a.Node, a.Which, a.Var, a.X)
	case "AUpdate":
		return fmt.Sprintf("n%d.%s:update(n%d,+%d)", a.Node, a.Which, a.Var, a.X)
	}
	return fmt.Sprintf("n%d.%s:%s", a.Node, a.Which, a.Kind)
}

// Op is one operation of a history.
type Op struct {
	K     string // NewVar NewReturn NewMap NewMap2 NewMapN NewCutoff NewAlways NewBind Observe Unobserve SetVar UpdateVar AddInput RemoveInput Stabilize StabilizeCancelled
	V     int
	Eq    bool
	F1    Fn1
	F2    Fn2
	FN    string
	Cut   string
	A, B  int
	Ins   []int
	Cases []*Texp
	Plan  []Action
}

func (o Op) Coq() string {
	switch o.K {
	case "NewVar":
		return fmt.Sprintf("NewVar %s %s", hx.Z(int64(o.V)), hx.Bool(o.Eq))
	case "NewReturn":
		return fmt.Sprintf("NewReturn %s", hx.Z(int64(o.V)))
	case "NewMap":
		return fmt.Sprintf("NewMap %s %d%%nat", o.F1.Coq(), o.A)
	case "NewMap2":
		return fmt.Sprintf("NewMap2 %s %d%%nat %d%%nat", o.F2.Coq(), o.A, o.B)
	case "NewMapN":
		return fmt.Sprintf("NewMapN %s %s", o.FN, hx.NatList(o.Ins))
	case "NewCutoff":
		return fmt.Sprintf("NewCutoff %s %d%%nat", o.Cut, o.A)
	case "NewAlways":
		return fmt.Sprintf("NewAlways %d%%nat", o.A)
	case "NewBind":
		return fmt.Sprintf("NewBind %s %d%%nat", casesCoq(o.Cases), o.A)
	case "NewBindMemo":
		return fmt.Sprintf("NewBindMemo %s %d%%nat", casesCoq(o.Cases), o.A)
	case "PurgeMemo":
		return fmt.Sprintf("PurgeMemo %d%%nat %s", o.A, hx.Z(int64(o.V)))
	case "ClearMemo":
		return fmt.Sprintf("ClearMemo %d%%nat", o.A)
	case "Observe":
		return fmt.Sprintf("Observe %d%%nat", o.A)
	case "Unobserve":
		return fmt.Sprintf("Unobserve %d%%nat", o.A)
	case "SetVar":
		return fmt.Sprintf("SetVar %d%%nat %s", o.A, hx.Z(int64(o.V)))
	case "UpdateVar":
		return fmt.Sprintf("UpdateVar %d%%nat %s", o.A, hx.Z(int64(o.V)))
	case "AddInput":
		return fmt.Sprintf("AddInput %d%%nat %d%%nat", o.A, o.B)
	case "RemoveInput":
		return fmt.Sprintf("RemoveInput %d%%nat %d%%nat", o.A, o.B)
	case "Stabilize", "ParStabilize":
		parts := make([]string, len(o.Plan))
		for i, a := range o.Plan {
			parts[i] = a.Coq()
		}
		return o.K + " [" + strings.Join(parts, "; ") + "]"
	default:
		return "StabilizeCancelled"
	}
}

func (o Op) String() string {
	switch o.K {
	case "NewVar":
		if o.Eq {
			return fmt.Sprintf("VarEqual(%d)", o.V)
		}
		return fmt.Sprintf("Var(%d)", o.V)
	case "NewReturn":
		return fmt.Sprintf("Return(%d)", o.V)
	case "NewMap":
		return fmt.Sprintf("Map[%d,%d](n%d)", o.F1.A, o.F1.B, o.A)
	case "NewMap2":
		return fmt.Sprintf("Map2[%d,%d,%d](n%d,n%d)", o.F2.A, o.F2.B, o.F2.C, o.A, o.B)
	case "NewMapN":
		return fmt.Sprintf("MapN[%s](%v)", o.FN, o.Ins)
	case "NewCutoff":
		return fmt.Sprintf("Cutoff[%s](n%d)", o.Cut, o.A)
	case "NewAlways":
		return fmt.Sprintf("Always(n%d)", o.A)
	case "NewBind":
		return fmt.Sprintf("Bind(n%d){%s}", o.A, casesStr(o.Cases))
	case "NewBindMemo":
		return fmt.Sprintf("BindMemoized(n%d){%s}", o.A, casesStr(o.Cases))
	case "NewBind2":
		return fmt.Sprintf("Bind2(n%d,n%d){%s}", o.A, o.B, casesStr(o.Cases))
	case "NewSentinel":
		return fmt.Sprintf("Sentinel(n%d)", o.A)
	case "FireSentinel":
		return fmt.Sprintf("s%d.fires-next-pass", o.A)
	case "Unwatch":
		return fmt.Sprintf("s%d.Unwatch()", o.A)
	case "PurgeMemo":
		return fmt.Sprintf("n%d.Cache().Purge(%d)", o.A, o.V)
	case "ClearMemo":
		return fmt.Sprintf("n%d.Cache().Clear()", o.A)
	case "Observe":
		return fmt.Sprintf("Observe(n%d)", o.A)
	case "Unobserve":
		return fmt.Sprintf("Unobserve(o%d)", o.A)
	case "SetVar":
		return fmt.Sprintf("n%d.Set(%d)", o.A, o.V)
	case "UpdateVar":
		return fmt.Sprintf("n%d.Update(+%d)", o.A, o.V)
	case "AddInput":
		return fmt.Sprintf("n%d.AddInput(n%d)", o.A, o.B)
	case "RemoveInput":
		return fmt.Sprintf("n%d.RemoveInput(n%d)", o.A, o.B)
	case "Stabilize", "ParStabilize":
		if len(o.Plan) == 0 {
			return o.K
		}
		parts := make([]string, len(o.Plan))
		for i, a := range o.Plan {
			parts[i] = a.String()
		}
		return o.K + "{" + strings.Join(parts, ",") + "}"
	default:
		return "Stabilize(cancelled ctx)"
	}
}
